#!/usr/bin/env python3
"""Copy every independently confirmed sub-agent change into /verif/seeded/<id>/ (patch.diff, the demonstration, meta.json) and
register it in the mutant catalogue.  detected_by is computed by running every check on a scratch copy with the patch."""
import json, os, shutil, subprocess, sys, glob
HERE = os.path.dirname(os.path.dirname(os.path.abspath(__file__)))
FIRST = {   # outcome of the FIRST run of the checks as they stood when the change arrived, and what was done about it
 'c06-global-scope-seq': 'missed (the static\'s type printed as Atomic<u64>; interior-mutability test now uses rustc\'s is_freeze) -> caught by C06.R3',
 'c06-import-dedup-order': 'caught by C06.R1 as built',
 'c01-arg-scope-shadow': 'caught by C08.R3 as built; C01 gained the shared rule C01.R4 afterwards',
 'c01-cycle-recheck-order': 'no C09 check existed yet; C09.R3 (flag-before-drain) was written knowing this change -> caught; shared as C01.R5',
 'c08-arg-scope-leak': 'the rule crashed on the changed push_scope signature (uninterpretable -> silent); rule made robust -> caught by C08.R3',
 'c08-rec-binder-leak': 'missed (binder declared through a new helper); C08.R2 now follows helpers that reach Env::declare -> caught',
 'c03-path-param-optional': 'caught by C03.R3 as built',
 'c03-atomic-ref-dropped': 'missed (match guard falls through into the shared arm block); polarity helper only_on_edge introduced -> caught by C03.R1',
 'c10-late-visit-mark': 'caught by C10.R1 as built', 'c10-scc-self-import': 'caught by C10.R3 as built (fails closed: toposort missing)',
 'c02-app-args-callee-scope': 'caught by C08.R3 only; C02 gained the shared rule C02.R4 afterwards',
 'c02-node-digest-no-module': 'C09.R2 digest clause was written knowing this change -> caught; shared as C02.R3 / C05.R5',
 'c05-arg-scope-capture': 'caught by C08.R3 only at first; C05.R4 shares it', 'c05-module-hash-collision': 'caught by C09.R2 (see c02-node-digest-no-module); C05.R5 shares it',
 'c09-module-basename-digest': 'missed (locator still hashed, but only its last segment); C09.R2 now requires the whole locator -> caught',
 'c09-cycles-single-pass': 'caught by C09.R3 (fails closed: fix-point structure not found)',
 'c07-seq-loc': 'missed (order-independence was not claimed); new rule C07.R6 VAR-NAMESPACE -> caught',
 'c07-var-before-eq': 'missed; new rule C07.R7 IDENTITY-FIRST -> caught',
 'c11-bom-strip': 'C11 was written after this change arrived; caught by C11.R1 (text handed on unchanged)',
 'c11-trailing-comma': 'C11 was written after this change arrived; caught by C11.R2 (rule was in the design)',
 'c04-memo-ok-only': 'missed; new shared rule C04.R4 / C12.R2 MEMO-TOTAL -> caught',
 'c04-status-code-width': 'missed; new rule C04.R5 STATUS-CONV (shared as C03.R4, C01.R6) -> caught',
 'c12-memo-skip-failures': 'caught by the MEMO-TOTAL rule added for c04-memo-ok-only', 'c12-object-memo-term-tag': 'caught by C12.R1 as built',
 'c14-base-servers-default': 'caught by C14.R1/R2 as built', 'c14-stale-base-schemas': 'missed (conditional frame assignment); C14.R1 now requires the assignment on every path -> caught',
 'c16-lf-eol-clamp': 'missed (unit-consistent); new rule C16.R3 CLAMP -> caught', 'c16-range-end-rebase': 'flagged only by C04.R1 (new slice index); new rule C16.R4 RANGE-ENDS -> caught',
 'c15-open-keeps-cached-text': 'missed; new rule C15.R6 DOC-SYNC -> caught', 'c15-read-file-no-cache': 'missed; new rule C15.R6 DOC-SYNC -> caught',
 'c13-cli-load-strips-bom': 'missed; new shared rule C13.R6 / C11.R1 LOADER-TEXT -> caught', 'c13-cli-target-no-truncate': 'missed; C13.R1 now requires a truncating write -> caught',
 'c17-ref-span-qualified': 'caught by C17.R2 as built', 'c17-refs-nested-import': 'missed; C17.R1 now rejects a subset of ModuleSet::modules() -> caught',
 'c18-builtin-refs': 'caught by C18.R2 as built', 'c18-qualifier-scope': 'missed; new rule C18.R4 QUALIFIER-LOCAL -> caught',
}
STAGE = os.environ.get('STAGE', '/root/seeded-staging')
VERIFIED = os.environ.get('VERIFIED', '/root/seeded-verified')
PREFIX = os.environ.get('IDPREFIX', '')
WTPREFIX = os.environ.get('WTPREFIX', '/tmp/wt-')
if os.environ.get('FIRSTFILE'):
    FIRST = json.load(open(os.environ['FIRSTFILE']))


def keys(src):
    r = subprocess.run([os.path.join(HERE, 'check'), 'all', '--keys-only'] + (['--src', src] if src else []), capture_output=True, text=True)
    return json.loads(r.stdout.strip().splitlines()[-1])
base = keys(None)
extra_path = os.path.join(HERE, 'mutants', 'catalogue_extra.json')
ORIGIN = 'sub-agent seeded change' + ((' (round %s)' % PREFIX.strip('r-')) if PREFIX else '')
extra = [e for e in json.load(open(extra_path)) if e.get('origin') != ORIGIN]
for vf in sorted(glob.glob(VERIFIED + '/*/*/verify.json')):
    v = json.load(open(vf))
    g, m = v['group'], v['name']
    sid = '%s%s-%s' % (PREFIX, g, m)
    if not v['confirmed']:
        print('SKIP (not confirmed)', sid); continue
    src = '%s/%s/%s' % (STAGE, g, m)
    dst = os.path.join(HERE, 'seeded', sid)
    shutil.rmtree(dst, ignore_errors=True)
    shutil.copytree(src, dst, ignore=shutil.ignore_patterns('out.*', '*.yaml.bak', 'target', '*.log', 'demo_override.txt'))
    am = json.load(open(os.path.join(src, 'meta.json')))
    if os.path.exists(os.path.join(dst, 'meta.json')):
        os.rename(os.path.join(dst, 'meta.json'), os.path.join(dst, 'agent_meta.json'))
    d = '/tmp/oalverif-mat'
    shutil.rmtree(d, ignore_errors=True)
    subprocess.check_call(['rsync', '-a', '--exclude', 'target', '--exclude', '.git', '/repo/', d + '/'])
    subprocess.check_call(['patch', '-p1', '-s', '-f', '-d', d, '-i', os.path.join(dst, 'patch.diff')])
    k = keys(d)
    shutil.rmtree(d, ignore_errors=True)
    new = {p: sorted(set(k[p]) - set(base.get(p, []))) for p in k}
    new = {p: x for p, x in new.items() if x}
    meta = {
        'id': sid,
        'property': am.get('property', g.upper()),
        'summary': am.get('summary'),
        'files_changed': am.get('files_changed'),
        'needs_to_manifest': am.get('needs_to_manifest'),
        'origin': 'fresh sub-agent given only the property text and its own worktree of /repo',
        'what_i_ran': {
            'worktree': '%s%s (scratch git worktree of /repo HEAD, removed afterwards)' % (WTPREFIX, g),
            'steps': ['git apply patch.diff', 'cargo build --workspace --offline', 'cargo test --workspace --no-fail-fast --offline',
                      v['demo_cmd'] + '   (with the change)', 'git checkout -- .', v['demo_cmd'] + '   (without the change)'],
            'tests_with_change': v['tests_with_change'],
            'demo_fails_with_change': v['demo_with_change']['fails'],
            'demo_passes_without_change': not v['demo_without_change']['fails'],
            'demo_output_with_change_tail': v['demo_with_change']['tail'][-600:],
        },
        'detected_by': new,
        'detected': bool(new),
        'first_result_and_follow_up': FIRST.get(sid, 'see DESIGN.md'),
    }
    if os.path.exists(os.path.join(dst, 'patch.orig-3ac75df.diff')):
        meta['rebased'] = 'patch.diff was rebased onto /repo 56a2d56 (fix: location-independent component names), which rewrote lines it touches; the agent\'s original patch against 3ac75df is patch.orig-3ac75df.diff. Same change in substance; re-confirmed independently on the new HEAD (builds, 90 tests pass, demonstration fails with / passes without).'
    json.dump(meta, open(os.path.join(dst, 'meta.json'), 'w'), indent=1)
    extra.append({'id': 'seeded-' + sid, 'kind': 'mutant', 'properties': sorted(new), 'what': (am.get('summary') or '')[:200],
                  'patch': 'seeded/%s/patch.diff' % sid, 'origin': ORIGIN})
    print(sid, 'detected_by', sorted(new))
json.dump(extra, open(extra_path, 'w'), indent=1)
