#!/usr/bin/env python3
"""Regenerate /verif/MANIFEST.json from the rule modules present in rules/ (one check per cXX.py)."""
import importlib, json, os, sys
HERE = os.path.dirname(os.path.dirname(os.path.abspath(__file__)))
sys.path.insert(0, os.path.join(HERE, 'rules'))
props = [json.loads(l) for l in open(os.path.join(HERE, 'properties.jsonl'))]
checks, na = [], []
NA_REASONS = {}
if os.path.exists(os.path.join(HERE, 'tools', 'not_applicable.json')):
    NA_REASONS = json.load(open(os.path.join(HERE, 'tools', 'not_applicable.json')))
for p in props:
    pid = p['id']
    path = os.path.join(HERE, 'rules', pid.lower() + '.py')
    if pid in NA_REASONS or not os.path.exists(path):
        na.append({'property_id': pid, 'reason': NA_REASONS.get(pid, 'static check not built yet (work in progress); not claimed')})
        continue
    m = importlib.import_module(pid.lower())
    checks.append({
        'property_id': pid,
        'quick_cmd': './check %s' % pid,
        'thorough_cmd': './check %s --tier thorough' % pid,
        'evidence_file': 'evidence/%s.json' % pid,
        'replay_cmd_template': 'cat {path}',
        'engine': 'oalfacts+rules',
        'level_claimed': {
            'category': 'other',
            'text': getattr(m, 'LEVEL_TEXT', m.EXPLANATION),
            'design_ref': getattr(m, 'DESIGN_REF', 'DESIGN.md section 6, ' + pid),
        },
        'level_note': getattr(m, 'LEVEL_NOTE', 'Decides structural clauses only (see DESIGN.md section 6 "Not decided" for %s). Trusted: rustc resolution and MIR construction, the exporter, third-party crates as specified; ' % pid
                              + '; '.join(getattr(m, 'ASSUMPTIONS', []))),
        'technique': getattr(m, 'TECHNIQUE', 'static analysis: custom rules over typed HIR and MIR exported by a rustc_private driver'),
    })
man = {
    'version': 1,
    'setup_cmd': './setup.sh',
    'hooks': {
        'guard': 'oxlip_lang_oal_verif',
        'enable': 'none needed: the analysis reads the unmodified build (cargo +nightly check under RUSTC_WORKSPACE_WRAPPER=engine/oalfacts)',
        'baseline_off_cmd': 'cd /repo && cargo test --workspace --no-fail-fast --offline',
        'source_commits': [],
        'add_only': True,
    },
    'engines': [
        {'name': 'oalfacts', 'path': 'engine/oalfacts', 'serves_properties': [c['property_id'] for c in checks],
         'kind_free_text': 'rustc_private driver (nightly) exporting typed HIR, MIR CFGs with resolved callees, ADTs, impls to JSON; no property logic'},
        {'name': 'rules', 'path': 'rules', 'serves_properties': [c['property_id'] for c in checks],
         'kind_free_text': 'stdlib-Python static analyses over the exported facts: call graph, dominators, def-use, discriminant abstract interpretation, position/table extraction, floors, known findings'},
    ],
    'checks': checks,
    'not_applicable': na,
    'notes': 'Static analysis only: no check executes oal code. Known findings: known_findings.txt. Fix commits in /repo: b5a2b22 5695ac1 3db2e62 99f20be 3ac75df 56a2d56 bed3368 42721f8 c271139 f741462 3216bb6 43919ac 8560c6f 83ad184 677e48f a19bb22 f218e0b fa14f1b f44403b f2f4c6f.',
}
json.dump(man, open(os.path.join(HERE, 'MANIFEST.json'), 'w'), indent=1)
print('checks', [c['property_id'] for c in checks], 'not_applicable', [n['property_id'] for n in na])
