#!/bin/sh
# stage2.sh cNN : stage round-2 outputs of /tmp/wt5-cNN, remove the worktree, and run every check on each change
g=$1
mkdir -p /root/seeded-staging5
cp -r /tmp/wt5-$g/seeded-out /root/seeded-staging5/$g && git -C /repo worktree remove --force /tmp/wt5-$g
for m in /root/seeded-staging5/$g/*/patch.diff; do echo "== $m"; python3 /verif/tools/trymut.py $m --baseline /tmp/base5.json | tr -d '\n '; echo; done
