#!/usr/bin/env python3
import sys
wt = sys.argv[1]; area = sys.argv[2]
print(f"""You are helping evaluate static-analysis checkers for the Rust project oxlip-lang/oal (Oxlip: a small functional DSL compiler - lexer,
memoizing parser, name resolution, type inference, evaluator - that emits OpenAPI 3 documents, plus a CLI and an LSP server).
A git worktree of the project is at {wt} (you own it; work ONLY inside it; do NOT read or touch /verif or /repo). No network; build with
`cargo ... --offline`.

Your task: produce 5 DIFFERENT behaviour-PRESERVING refactorings of the code in this area: {area}.
Each refactoring must keep the observable behaviour of every public function exactly the same for all inputs (same results, same errors, same
panics-or-not, same output bytes), must compile without new warnings being errors (`cargo build --workspace --offline`), and must keep the
whole test suite passing (`cargo test --workspace --no-fail-fast --offline`, 90 tests). They should be the kind of edits a maintainer makes
while tidying: extract a helper function or method, inline a small helper, rename locals/parameters/private functions (updating all uses),
reorder independent statements or items, replace a `match` by `if let`/`let else` or vice versa, replace an iterator chain by an
equivalent loop or vice versa, introduce a local for a sub-expression, split a function in two, convert a closure to a named fn, change
`for` + push into `map().collect()` where order is preserved, replace `x.clone()` moves where equivalent, add early returns, etc.
Make each refactoring non-trivial (touch 5-40 lines), and make them different in kind from each other. Do NOT change public API names or
signatures, do not touch tests, do not change algorithms, data structures with different iteration order, constants, messages or types of fields.

For EACH refactoring deliver, in {wt}/benign-out/<short-name>/ :
  1. patch.diff - `git diff` against HEAD (must apply with `git apply` on a clean checkout of HEAD)
  2. meta.json  - {{"summary": "...", "files_changed": [...], "why_behaviour_preserving": "...", "tests_pass": true}}
Work one at a time: edit, build, run the full test suite, save the diff, `git checkout -- .`, next. Leave the worktree clean apart from
benign-out/. Report the list of names with one line each.""")
