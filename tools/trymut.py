#!/usr/bin/env python3
"""trymut.py <patch.diff> [--slot N] : apply a patch to a scratch copy of /repo, run every property's rules on it and
print the violation keys that are new relative to the unchanged tree.  Scratch copies live outside /repo and /verif and
are removed afterwards."""
import json, os, shutil, subprocess, sys, argparse
HERE = os.path.dirname(os.path.dirname(os.path.abspath(__file__)))
sys.path.insert(0, os.path.join(HERE, 'rules'))

def scratch_copy(slot):
    d = '/tmp/oalverif-mut-%s' % slot
    shutil.rmtree(d, ignore_errors=True)
    subprocess.check_call(['rsync', '-a', '--exclude', 'target', '--exclude', '.git', '/repo/', d + '/'])
    return d

def keys(src, slot, props='all'):
    env = dict(os.environ, OAL_TARGET_SLOT=str(slot))
    r = subprocess.run([os.path.join(HERE, 'check'), props, '--keys-only'] + (['--src', src] if src else []),
                       capture_output=True, text=True, env=env)
    if r.returncode != 0 or not r.stdout.strip():
        return None, r.stderr[-3000:]
    return json.loads(r.stdout.strip().splitlines()[-1]), ''

def main():
    ap = argparse.ArgumentParser()
    ap.add_argument('patch')
    ap.add_argument('--slot', default='0')
    ap.add_argument('--baseline', default=None, help='json file with baseline keys (else computed)')
    a = ap.parse_args()
    if a.baseline and os.path.exists(a.baseline):
        base = json.load(open(a.baseline))
    else:
        base, err = keys(None, a.slot)
        if base is None:
            print('BASELINE EXPORT FAILED', err); return 2
        if a.baseline:
            json.dump(base, open(a.baseline, 'w'))
    d = scratch_copy(a.slot)
    try:
        r = subprocess.run(['git', 'apply', '--unsafe-paths', '--directory', d, os.path.abspath(a.patch)], cwd='/', capture_output=True, text=True)
        if r.returncode != 0:
            r = subprocess.run(['patch', '-p1', '-d', d, '-i', os.path.abspath(a.patch)], capture_output=True, text=True)
            if r.returncode != 0:
                print('PATCH DOES NOT APPLY', r.stdout[-500:], r.stderr[-500:]); return 3
        mut, err = keys(d, a.slot)
        if mut is None:
            print('MUTANT EXPORT FAILED (does not compile?)', err); return 4
        new = {p: sorted(set(mut[p]) - set(base.get(p, []))) for p in mut}
        gone = {p: sorted(set(base.get(p, [])) - set(mut[p])) for p in mut}
        new = {p: v for p, v in new.items() if v}
        gone = {p: v for p, v in gone.items() if v}
        print(json.dumps({'new': new, 'gone': gone}, indent=1))
        return 0 if new else 1
    finally:
        shutil.rmtree(d, ignore_errors=True)

if __name__ == '__main__':
    sys.exit(main())
