#!/usr/bin/env python3
"""varfacts.py <patch> <outdir>: export the facts of /repo + patch into <outdir> (development aid; scratch copy removed)."""
import sys, os, shutil, subprocess
HERE = os.path.dirname(os.path.dirname(os.path.abspath(__file__)))
sys.path.insert(0, os.path.join(HERE, 'rules'))
import facts as F
patch, out = sys.argv[1], sys.argv[2]
d = '/tmp/oalverif-vf'
shutil.rmtree(d, ignore_errors=True)
subprocess.check_call(['rsync', '-a', '--exclude', 'target', '--exclude', '.git', '/repo/', d + '/'])
r = subprocess.run(['git', 'apply', '--unsafe-paths', '--directory', d, os.path.abspath(patch)], cwd='/', capture_output=True, text=True)
if r.returncode != 0:
    r = subprocess.run(['patch', '-p1', '-d', d, '-i', os.path.abspath(patch)], capture_output=True, text=True)
    if r.returncode != 0:
        print('PATCH DOES NOT APPLY', r.stdout[-400:]); sys.exit(3)
os.environ['OAL_TARGET_SLOT'] = 'vf'
fd = F.export(d)
shutil.rmtree(out, ignore_errors=True)
shutil.move(fd, out)
shutil.rmtree(d, ignore_errors=True)
print('facts in', out)
