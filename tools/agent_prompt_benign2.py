#!/usr/bin/env python3
"""Benign-refactoring prompt that lists what earlier agents already did to the files of the area."""
import json, subprocess, sys
wt, area = sys.argv[1], sys.argv[2]
files = sys.argv[3:]
done = json.load(open('/root/benign-done.json'))
lines = []
for f in files:
    for x in done.get(f, []):
        lines.append('  - %s (%s)' % (x, f))
base = subprocess.check_output(['python3', '/verif/tools/agent_prompt_benign.py', wt, area], text=True)
extra = ("\nRefactorings ALREADY produced by others for this area (do NOT repeat them; pick other functions, or a different kind of edit on the same function):\n"
         + "\n".join(lines) + "\nSpread your five refactorings over functions that list does not mention where possible; at least two of them should restructure control flow or data flow of a function of 15+ lines (not just rename or reformat).\n")
print(base.replace("\nFor EACH refactoring deliver", extra + "\nFor EACH refactoring deliver"))
