import lsp_harness as H, json
H.BIN='/repo/target/debug/oal-lsp'
s=H.Server('ws')
u=s.open('main.oal', open('ws/main.oal').read()); s.idle()
r=s.rename('main.oal',0,15,'q')
print(json.dumps(H.short('ws', r))[:800])
s.stop()
