#!/usr/bin/env python3
"""Minimal LSP client used by the demonstrations.

It drives the real `oal-lsp` binary over stdio, keeps a client-side copy of every open
document (edits applied with UTF-16 positions, as an editor does), and can replay the
*final* texts into a fresh server so both can be compared.
"""
import json
import os
import queue
import subprocess
import threading
import time

ROOT = os.path.abspath(os.path.join(os.path.dirname(__file__), "..", ".."))
BIN = os.environ.get("OAL_LSP", os.path.join(ROOT, "target", "debug", "oal-lsp"))
IDLE = 1.6  # the server refreshes after 1s without messages


def uri(path):
    return "file://" + os.path.abspath(path)


def utf16_index(text, line, character):
    """Index in `text` (python str) of the UTF-16 position, as an editor computes it."""
    lines = text.split("\n")
    idx = sum(len(l) + 1 for l in lines[:line])
    units = 0
    for ch in lines[line] if line < len(lines) else "":
        if units >= character:
            break
        units += 2 if ord(ch) > 0xFFFF else 1
        idx += 1
    return idx


class Server:
    def __init__(self, folder):
        self.folder = os.path.abspath(folder)
        self.proc = subprocess.Popen(
            [BIN], cwd=self.folder, stdin=subprocess.PIPE, stdout=subprocess.PIPE,
            stderr=subprocess.DEVNULL)
        self.q = queue.Queue()
        self.next_id = 1
        self.diags = {}     # uri -> last published list
        self.publishes = []  # chronological (uri, list)
        self.texts = {}     # uri -> client copy of open documents
        self.versions = {}
        threading.Thread(target=self._reader, daemon=True).start()
        self.request("initialize", {
            "processId": None,
            "rootUri": uri(self.folder),
            "capabilities": {"general": {"positionEncodings": ["utf-16"]}},
            "workspaceFolders": [{"uri": uri(self.folder), "name": "ws"}],
        })
        self.notify("initialized", {})

    # -- transport -------------------------------------------------------
    def _reader(self):
        out = self.proc.stdout
        while True:
            length = None
            while True:
                line = out.readline()
                if not line:
                    self.q.put(None)
                    return
                line = line.strip()
                if not line:
                    break
                if line.lower().startswith(b"content-length:"):
                    length = int(line.split(b":")[1])
            body = out.read(length)
            self.q.put(json.loads(body))

    def _send(self, msg):
        data = json.dumps(msg).encode("utf-8")
        try:
            self.proc.stdin.write(b"Content-Length: %d\r\n\r\n" % len(data) + data)
            self.proc.stdin.flush()
        except (BrokenPipeError, OSError):
            pass

    def _handle(self, msg):
        if msg.get("method") == "textDocument/publishDiagnostics":
            p = msg["params"]
            ds = sorted(
                (d["range"]["start"]["line"], d["range"]["start"]["character"],
                 d["range"]["end"]["line"], d["range"]["end"]["character"], d["message"])
                for d in p["diagnostics"])
            self.diags[p["uri"]] = ds
            self.publishes.append((p["uri"], ds))

    def notify(self, method, params):
        self._send({"jsonrpc": "2.0", "method": method, "params": params})

    def request(self, method, params, timeout=10):
        rid = self.next_id
        self.next_id += 1
        self._send({"jsonrpc": "2.0", "id": rid, "method": method, "params": params})
        deadline = time.time() + timeout
        while time.time() < deadline:
            try:
                msg = self.q.get(timeout=0.1)
            except queue.Empty:
                if self.proc.poll() is not None:
                    return "<server died>"
                continue
            if msg is None:
                return "<server died>"
            if msg.get("id") == rid and "method" not in msg:
                return msg.get("result", msg.get("error"))
            self._handle(msg)
        return "<timeout>"

    def idle(self, seconds=IDLE):
        """Lets the server reach its idle refresh, then collects what it published."""
        deadline = time.time() + seconds
        while time.time() < deadline:
            try:
                msg = self.q.get(timeout=0.05)
            except queue.Empty:
                continue
            if msg is None:
                break
            self._handle(msg)

    def alive(self):
        return self.proc.poll() is None

    def stop(self):
        if self.alive():
            self.request("shutdown", None, timeout=3)
            self.notify("exit", None)
            try:
                self.proc.wait(timeout=3)
            except subprocess.TimeoutExpired:
                self.proc.kill()

    # -- document synchronisation -----------------------------------------
    def open(self, path, text):
        u = uri(os.path.join(self.folder, path))
        self.texts[u] = text
        self.versions[u] = 1
        self.notify("textDocument/didOpen", {"textDocument": {
            "uri": u, "languageId": "oal", "version": 1, "text": text}})
        return u

    def change(self, path, edits):
        """edits: list of ((l0, c0, l1, c1), text) applied in order, or (None, text)."""
        u = uri(os.path.join(self.folder, path))
        changes = []
        for rng, new in edits:
            text = self.texts[u]
            if rng is None:
                self.texts[u] = new
                changes.append({"text": new})
            else:
                l0, c0, l1, c1 = rng
                a, b = utf16_index(text, l0, c0), utf16_index(text, l1, c1)
                self.texts[u] = text[:a] + new + text[b:]
                changes.append({"range": {"start": {"line": l0, "character": c0},
                                          "end": {"line": l1, "character": c1}},
                                "text": new})
        self.versions[u] += 1
        self.notify("textDocument/didChange", {
            "textDocument": {"uri": u, "version": self.versions[u]},
            "contentChanges": changes})

    def close(self, path):
        u = uri(os.path.join(self.folder, path))
        del self.texts[u]
        self.notify("textDocument/didClose", {"textDocument": {"uri": u}})

    # -- requests ------------------------------------------------------------
    def _tdp(self, path, line, character):
        return {"textDocument": {"uri": uri(os.path.join(self.folder, path))},
                "position": {"line": line, "character": character}}

    def definition(self, path, line, character):
        return self.request("textDocument/definition", self._tdp(path, line, character))

    def references(self, path, line, character):
        p = self._tdp(path, line, character)
        p["context"] = {"includeDeclaration": True}
        r = self.request("textDocument/references", p)
        if isinstance(r, list):
            r = sorted(r, key=lambda l: json.dumps(l, sort_keys=True))
        return r

    def rename(self, path, line, character, new_name):
        p = self._tdp(path, line, character)
        p["newName"] = new_name
        r = self.request("textDocument/rename", p)
        if isinstance(r, dict) and r.get("changes"):
            for k in r["changes"]:
                r["changes"][k] = sorted(r["changes"][k], key=lambda e: json.dumps(e, sort_keys=True))
        return r

    def visible_diagnostics(self):
        """What the editor shows: last published list per URI, empty lists dropped."""
        return {u: d for u, d in self.diags.items() if d}


def fresh_replay(folder, texts):
    """A fresh server that is handed the final texts of the open documents."""
    s = Server(folder)
    for u, t in texts.items():
        s.texts[u] = t
        s.notify("textDocument/didOpen", {"textDocument": {
            "uri": u, "languageId": "oal", "version": 1, "text": t}})
    s.idle()
    return s


def short(folder, obj):
    return json.dumps(obj, sort_keys=True, ensure_ascii=False).replace(uri(folder) + "/", "")
