import lsp_harness as H
H.BIN='/repo/target/debug/oal-lsp'
s=H.Server('ws')
u=s.open('main.oal', open('ws/main.oal').read()); s.idle()
# line 1: `let a = q . name;`  columns: q=8, ' '=9, '.'=10, ' '=11, name=12..15, ';'=16
for col,what in [(8,'qualifier q'),(9,'blank'),(10,'full stop'),(11,'blank'),(12,'name'),(16,'semicolon'),(4,'declared a')]:
    r=s.definition('main.oal',1,col)
    print(col, what, '->', H.short('ws', r))
s.stop()
