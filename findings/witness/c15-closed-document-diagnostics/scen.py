import os, sys, json
os.environ['OAL_LSP']='/repo/target/debug/oal-lsp'
import lsp_harness as H
H.BIN='/repo/target/debug/oal-lsp'
def run(history):
    s=H.Server('ws')
    main=open('ws/main.oal').read(); mod=open('ws/mod.oal').read()
    if history:
        s.open('main.oal', main); s.open('mod.oal', mod); s.idle()
        s.change('mod.oal', [(None, "let item = { 'p undefined_name };\n")]); s.idle()
        print('after error   :', {k.split('/')[-1]:v for k,v in s.diags.items()})
        # drop the import in main and close mod.oal back to back
        s.change('main.oal', [(None, "res /a on get -> <{}>;\n")])
        s.close('mod.oal'); s.idle(); s.idle()
        print('history final :', {k.split('/')[-1]:v for k,v in s.diags.items()})
    else:
        s.open('main.oal', "res /a on get -> <{}>;\n"); s.idle(); s.idle()
        print('fresh final   :', {k.split('/')[-1]:v for k,v in s.diags.items()})
    print('alive', s.alive()); s.stop()
run(True); run(False)
