import os, sys, json
import lsp_harness as H
H.BIN='/repo/target/debug/oal-lsp'
s=H.Server('ws2')
s.open('main.oal', open('ws2/main.oal').read()); s.idle(); s.idle()
print('lsp diagnostics:', {k.split('/')[-1]:v for k,v in s.diags.items()}, 'alive', s.alive()); s.stop()
