import lsp_harness as H
H.BIN='/repo/target/debug/oal-lsp'
s=H.Server('ws3')
u=s.open('main.oal', open('ws3/main.oal').read()); s.idle()
# an edit whose start lies inside the surrogate pair of the emoji (UTF-16 column 4 of `// 😉 comment`), end just after it
s.notify("textDocument/didChange", {"textDocument": {"uri": u, "version": 2},
   "contentChanges": [{"range": {"start": {"line": 0, "character": 4}, "end": {"line": 0, "character": 5}}, "text": "x"}]})
s.idle()
print('alive after the edit:', s.alive())
s.stop()
