import json, subprocess, sys, os, time, select
root="WORKSPACE_DIR"
p=subprocess.Popen(["OAL_LSP_BIN"],stdin=subprocess.PIPE,stdout=subprocess.PIPE,stderr=subprocess.PIPE,cwd=root,bufsize=0)
def send(m):
    b=json.dumps(m).encode(); p.stdin.write(b"Content-Length: %d\r\n\r\n"%len(b)+b); p.stdin.flush()
def recv(timeout=3):
    r,_,_=select.select([p.stdout],[],[],timeout)
    if not r: return None
    h=b""
    while not h.endswith(b"\r\n\r\n"):
        c=p.stdout.read(1)
        if not c: return None
        h+=c
    n=int(h.split(b":")[1].split(b"\r\n")[0]); return json.loads(p.stdout.read(n))
uri="file://"+root+"/main.oal"
send({"jsonrpc":"2.0","id":1,"method":"initialize","params":{"processId":None,"rootUri":None,"capabilities":{"general":{"positionEncodings":["utf-16"]}},"workspaceFolders":[{"uri":"file://"+root,"name":"ws"}]}})
print("init:", str(recv())[:80])
send({"jsonrpc":"2.0","method":"initialized","params":{}})
send({"jsonrpc":"2.0","method":"textDocument/didOpen","params":{"textDocument":{"uri":uri,"languageId":"oal","version":1,"text":open(root+"/main.oal").read()}}})
# rename at the use of x (line 0, col 10)
send({"jsonrpc":"2.0","id":2,"method":"textDocument/rename","params":{"textDocument":{"uri":uri},"position":{"line":0,"character":10},"newName":"y"}})
for _ in range(4):
    m=recv(3)
    print("msg:", str(m)[:160])
    if m is None: break
time.sleep(0.5)
print("exit status:", p.poll()); print(p.stderr.read1(4000).decode()[-600:] if p.poll() is not None else "alive")
p.kill()
