#!/bin/sh
# Build the exporter offline and warm the dependency cache (workspace deps under nightly check).
set -e
cd "$(dirname "$0")"
export CARGO_NET_OFFLINE=true
(cd engine/oalfacts && cargo build --offline)
python3 rules/facts.py
