//! oalfacts: a deliberately dumb exporter. It serialises what rustc resolved (typed HIR bodies, MIR
//! control-flow graphs with resolved callees, ADT definitions, trait impls) to one JSON file per
//! rustc process. It contains no property logic; every rule lives in /verif/rules/*.py.
//!
//! Invoked as RUSTC_WORKSPACE_WRAPPER: argv[1] is the real rustc path and is dropped.
#![feature(rustc_private)]
#![feature(box_patterns)]
extern crate rustc_abi;
extern crate rustc_ast;
extern crate rustc_driver;
extern crate rustc_hir;
extern crate rustc_interface;
extern crate rustc_middle;
extern crate rustc_span;

mod json;

/// Path of a definition as rules match it. rustc prints the *visible* path, which for an item of another crate may run
/// through a re-export of a third crate (`wasm_bindgen::__rt::core::panicking::assert_failed`); such a path is replaced
/// by the definition's own path so that callee patterns (`core::panicking::`) cannot be dodged by a re-export.
pub fn dpath(tcx: rustc_middle::ty::TyCtxt<'_>, d: rustc_hir::def_id::DefId) -> String {
    let s = tcx.def_path_str(d);
    if d.is_local() || s.starts_with('<') {
        return s;
    }
    let krate = tcx.crate_name(d.krate).to_string();
    let first = s.split("::").next().unwrap_or("");
    let std_family = |k: &str| k == "std" || k == "core" || k == "alloc";
    if first == krate || (std_family(first) && std_family(&krate)) {
        return s;
    }
    rustc_middle::ty::print::with_no_visible_paths!(tcx.def_path_str(d))
}

mod hirx;
mod mirx;

use json::J;
use rustc_driver::Compilation;
use rustc_hir as hir;
use rustc_hir::def::DefKind;
use rustc_interface::interface::Compiler;
use rustc_middle::ty::TyCtxt;

struct Cb;

fn crate_wanted(name: &str) -> bool {
    match std::env::var("OALFACTS_CRATES") {
        Ok(list) => list.split(',').any(|p| !p.is_empty() && name.starts_with(p)),
        Err(_) => name.starts_with("oal_"),
    }
}

pub fn span_str(tcx: TyCtxt<'_>, sp: rustc_span::Span) -> String {
    tcx.sess.source_map().span_to_diagnostic_string(sp)
}

/// Canonical, unambiguous id of a definition: crate name + def path (`oal_compiler::eval::{impl#0}::new`).
pub fn def_id_str(tcx: TyCtxt<'_>, d: rustc_hir::def_id::DefId) -> String {
    format!("{}{}", tcx.crate_name(d.krate), tcx.def_path(d).to_string_no_crate_verbose())
}

pub fn line_of(tcx: TyCtxt<'_>, sp: rustc_span::Span) -> usize {
    if sp.is_dummy() {
        return 0;
    }
    tcx.sess.source_map().lookup_char_pos(sp.lo()).line
}

impl rustc_driver::Callbacks for Cb {
    fn after_analysis<'tcx>(&mut self, _c: &Compiler, tcx: TyCtxt<'tcx>) -> Compilation {
        let krate = tcx.crate_name(rustc_span::def_id::LOCAL_CRATE).to_string();
        if !crate_wanted(&krate) {
            return Compilation::Continue;
        }
        let outdir = std::env::var("OALFACTS_OUT").expect("OALFACTS_OUT not set");
        let crate_types: Vec<String> =
            tcx.crate_types().iter().map(|t| format!("{:?}", t)).collect();
        let is_bin = crate_types.iter().any(|t| t == "Executable");

        let mut fns = Vec::new();
        for def in tcx.hir_body_owners() {
            let kind = tcx.def_kind(def);
            if !matches!(kind, DefKind::Fn | DefKind::AssocFn | DefKind::Closure) {
                continue;
            }
            let did = def.to_def_id();
            let name = tcx.def_path_str(did);
            let mut o = vec![
                ("id", J::s(&def_id_str(tcx, did))),
                ("name", J::s(&name)),
                ("kind", J::s(&format!("{:?}", kind))),
                ("span", J::s(&span_str(tcx, tcx.def_span(def)))),
                ("line", J::n(line_of(tcx, tcx.def_span(def)) as i64)),
            ];
            // parent (for closures) and impl information
            let parent = tcx.parent(did);
            if kind == DefKind::Closure {
                o.push(("parent", J::s(&tcx.def_path_str(tcx.typeck_root_def_id(did)))));
            }
            if kind == DefKind::AssocFn {
                let pk = tcx.def_kind(parent);
                if let DefKind::Impl { of_trait } = pk {
                    let self_ty = tcx.type_of(parent).instantiate_identity().skip_norm_wip();
                    o.push(("impl_self", J::s(&self_ty.to_string())));
                    if of_trait {
                        let tr = tcx.impl_trait_ref(parent).instantiate_identity().skip_norm_wip();
                        o.push(("impl_trait", J::s(&tcx.def_path_str(tr.def_id))));
                        o.push(("impl_trait_ref", J::s(&tr.to_string())));
                    }
                } else if pk == DefKind::Trait {
                    o.push(("in_trait", J::s(&tcx.def_path_str(parent))));
                }
                o.push(("assoc_name", J::s(tcx.item_name(did).as_str())));
            }
            if matches!(kind, DefKind::Fn | DefKind::AssocFn) {
                o.push(("vis", J::s(&format!("{:?}", tcx.visibility(did)))));
                let sig = tcx.fn_sig(did).instantiate_identity().skip_norm_wip().skip_binder();
                o.push((
                    "sig_inputs",
                    J::Arr(sig.inputs().iter().map(|t| J::s(&t.to_string())).collect()),
                ));
                o.push(("sig_output", J::s(&sig.output().to_string())));
            }
            // attributes we care about: #[test]
            o.push(("hir", hirx::export_body(tcx, def)));
            o.push(("mir", mirx::export_body(tcx, def)));
            o.push(("promoted_fns", mirx::export_promoted_fns(tcx, def)));
            fns.push(J::Obj(o));
        }

        // ADTs
        let mut adts = Vec::new();
        let mut impls = Vec::new();
        let mut statics = Vec::new();
        for id in tcx.hir_free_items() {
            let item = tcx.hir_item(id);
            let did = item.owner_id.to_def_id();
            match item.kind {
                hir::ItemKind::Enum(..) | hir::ItemKind::Struct(..) => {
                    let adt = tcx.adt_def(did);
                    let vs = adt
                        .variants()
                        .iter()
                        .map(|v| {
                            let fs = v
                                .fields
                                .iter()
                                .map(|f| {
                                    J::Arr(vec![
                                        J::s(f.name.as_str()),
                                        J::s(&tcx
                                            .type_of(f.did)
                                            .instantiate_identity()
                                            .skip_norm_wip()
                                            .to_string()),
                                    ])
                                })
                                .collect();
                            // source text of the (inert) attributes of the variant, e.g. logos' #[regex("..")]
                            let at: Vec<J> = tcx
                                .get_all_attrs(v.def_id)
                                .iter()
                                .filter_map(|a| match a {
                                    hir::Attribute::Unparsed(n) => Some(tcx.sess.source_map().span_to_snippet(n.span).unwrap_or_else(|_| format!("{:?}", n.path))),
                                    _ => None,
                                })
                                .map(|t| J::s(&t))
                                .collect();
                            J::Obj(vec![("name", J::s(v.name.as_str())), ("fields", J::Arr(fs)), ("attrs", J::Arr(at))])
                        })
                        .collect();
                    let item_attrs: Vec<J> = tcx
                        .get_all_attrs(did)
                        .iter()
                        .filter_map(|a| match a {
                                    hir::Attribute::Unparsed(n) => Some(tcx.sess.source_map().span_to_snippet(n.span).unwrap_or_else(|_| format!("{:?}", n.path))),
                                    _ => None,
                                })
                        .map(|t| J::s(&t))
                        .collect();
                    // Derive-helper attributes (logos' #[regex(..)] / #[token(..)] / #[logos(..)]) do not survive into the
                    // HIR: for enums that carry them the source text of the item (with the attribute lines in front of
                    // it) is exported, so that a rule can read the token patterns.
                    let mut src_text = String::new();
                    if !item.span.from_expansion() {
                        let sm = tcx.sess.source_map();
                        if let Ok(body) = sm.span_to_snippet(item.span) {
                            if body.contains("#[regex") || body.contains("#[token") {
                                let file = sm.lookup_source_file(item.span.lo());
                                let mut head = String::new();
                                if let Some(text) = file.src.as_ref() {
                                    let off = (item.span.lo().0 - file.start_pos.0) as usize;
                                    let before: Vec<&str> = text[..off.min(text.len())].lines().collect();
                                    let mut k = before.len();
                                    while k > 0 && (before[k - 1].trim_start().starts_with("#[") || before[k - 1].trim().is_empty() && k < before.len() && false) {
                                        k -= 1;
                                    }
                                    head = before[k..].join("\n");
                                }
                                src_text = format!("{}\n{}", head, body);
                            }
                        }
                    }
                    adts.push(J::Obj(vec![
                        ("src", J::s(&src_text)),
                        ("attrs", J::Arr(item_attrs)),
                        ("id", J::s(&def_id_str(tcx, did))),
                        ("name", J::s(&tcx.def_path_str(did))),
                        ("enum", J::Bool(adt.is_enum())),
                        ("variants", J::Arr(vs)),
                        ("span", J::s(&span_str(tcx, item.span))),
                        ("exp", J::Bool(item.span.from_expansion())),
                    ]));
                }
                hir::ItemKind::Impl(imp) => {
                    let self_ty = tcx.type_of(did).instantiate_identity().skip_norm_wip();
                    let mut o = vec![
                        ("self", J::s(&self_ty.to_string())),
                        ("exp", J::Bool(item.span.from_expansion())),
                        ("span", J::s(&span_str(tcx, item.span))),
                    ];
                    if imp.of_trait.is_some() {
                        let tr = tcx.impl_trait_ref(did).instantiate_identity().skip_norm_wip();
                        o.push(("trait", J::s(&tcx.def_path_str(tr.def_id))));
                        o.push(("trait_ref", J::s(&tr.to_string())));
                    }
                    let items = tcx
                        .associated_items(did)
                        .in_definition_order()
                        .map(|a| J::s(&def_id_str(tcx, a.def_id)))
                        .collect();
                    o.push(("items", J::Arr(items)));
                    impls.push(J::Obj(o));
                }
                hir::ItemKind::Static(..) => {
                    let ty = tcx.type_of(did).instantiate_identity().skip_norm_wip();
                    statics.push(J::Obj(vec![
                        ("name", J::s(&tcx.def_path_str(did))),
                        ("ty", J::s(&ty.to_string())),
                        ("mutable", J::Bool(tcx.is_mutable_static(did))),
                        (
                            "freeze",
                            J::Bool(ty.is_freeze(tcx, rustc_middle::ty::TypingEnv::fully_monomorphized())),
                        ),
                        ("exp", J::Bool(item.span.from_expansion())),
                    ]));
                }
                _ => {}
            }
        }

        let out = J::Obj(vec![
            ("crate", J::s(&krate)),
            ("is_bin", J::Bool(is_bin)),
            ("crate_types", J::Arr(crate_types.iter().map(|t| J::s(t)).collect())),
            ("fns", J::Arr(fns)),
            ("adts", J::Arr(adts)),
            ("impls", J::Arr(impls)),
            ("statics", J::Arr(statics)),
        ]);
        let unit = if is_bin { format!("{}.bin", krate) } else { krate.clone() };
        let path = format!("{}/{}.{}.json", outdir, unit, std::process::id());
        let mut buf = String::with_capacity(1 << 22);
        out.write(&mut buf);
        // one write per process: parallel rustc invocations never interleave
        std::fs::write(&path, buf).expect("write facts");
        Compilation::Continue
    }
}

fn main() {
    let mut args: Vec<String> = std::env::args().collect();
    args.remove(1);
    rustc_driver::run_compiler(&args, &mut Cb);
}
