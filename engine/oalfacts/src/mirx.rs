//! MIR control-flow graphs with resolved callees.
use crate::json::J;
use crate::line_of;
use rustc_hir::def::DefKind;
use rustc_hir::def_id::{DefId, LocalDefId};
use rustc_middle::mir::{
    AggregateKind, BasicBlock, Body, ConstOperand, Operand, Place, PlaceElem, ProjectionElem,
    Rvalue, StatementKind, TerminatorKind, UnwindAction, VarDebugInfoContents,
};
use rustc_middle::ty::{self, GenericArgsRef, Instance, Ty, TyCtxt, TypingEnv};

struct M<'a, 'tcx> {
    tcx: TyCtxt<'tcx>,
    body: &'a Body<'tcx>,
    env: TypingEnv<'tcx>,
}

fn bb(b: BasicBlock) -> J {
    J::n(b.as_usize() as i64)
}

impl<'a, 'tcx> M<'a, 'tcx> {
    fn place(&self, p: &Place<'tcx>) -> J {
        let mut proj = Vec::new();
        let mut pty = rustc_middle::mir::PlaceTy::from_ty(self.body.local_decls[p.local].ty);
        for elem in p.projection.iter() {
            let e: PlaceElem<'tcx> = elem;
            let j = match e {
                ProjectionElem::Deref => J::Obj(vec![("p", J::s("deref"))]),
                ProjectionElem::Field(idx, fty) => {
                    let mut name = String::new();
                    let mut owner = String::new();
                    if let ty::Adt(adt, _) = pty.ty.kind() {
                        let vidx = pty.variant_index.unwrap_or(rustc_abi::FIRST_VARIANT);
                        if adt.is_enum() || adt.is_struct() {
                            let v = adt.variant(vidx);
                            if let Some(f) = v.fields.get(idx) {
                                name = f.name.as_str().to_owned();
                            }
                            owner = self.tcx.def_path_str(adt.did());
                        }
                    }
                    J::Obj(vec![
                        ("p", J::s("field")),
                        ("i", J::n(idx.as_usize() as i64)),
                        ("name", J::s(&name)),
                        ("owner", J::s(&owner)),
                        ("ty", J::s(&fty.to_string())),
                    ])
                }
                ProjectionElem::Downcast(sym, vidx) => {
                    let mut name = sym.map(|s| s.as_str().to_owned()).unwrap_or_default();
                    if name.is_empty() {
                        if let ty::Adt(adt, _) = pty.ty.kind() {
                            name = adt.variant(vidx).name.as_str().to_owned();
                        }
                    }
                    J::Obj(vec![("p", J::s("downcast")), ("variant", J::s(&name))])
                }
                ProjectionElem::Index(l) => {
                    J::Obj(vec![("p", J::s("index")), ("local", J::n(l.as_usize() as i64))])
                }
                ProjectionElem::ConstantIndex { offset, from_end, .. } => J::Obj(vec![
                    ("p", J::s("cindex")),
                    ("offset", J::n(offset as i64)),
                    ("from_end", J::Bool(from_end)),
                ]),
                ProjectionElem::Subslice { .. } => J::Obj(vec![("p", J::s("subslice"))]),
                _ => J::Obj(vec![("p", J::s("other")), ("d", J::s(&format!("{:?}", e)))]),
            };
            proj.push(j);
            pty = pty.projection_ty(self.tcx, e);
        }
        J::Obj(vec![
            ("l", J::n(p.local.as_usize() as i64)),
            ("proj", J::Arr(proj)),
            ("ty", J::s(&pty.ty.to_string())),
        ])
    }

    fn fn_def(&self, def_id: DefId, args: GenericArgsRef<'tcx>) -> Vec<(&'static str, J)> {
        let tcx = self.tcx;
        let mut o = vec![
            ("id", J::s(&crate::def_id_str(tcx, def_id))),
            ("def", J::s(&crate::dpath(tcx, def_id))),
            ("path", J::s(&tcx.def_path_str_with_args(def_id, args))),
            ("gargs", J::Arr(args.iter().map(|a| J::s(&a.to_string())).collect())),
            ("local", J::Bool(def_id.is_local())),
            ("crate", J::s(tcx.crate_name(def_id.krate).as_str())),
        ];
        if matches!(tcx.def_kind(def_id), DefKind::AssocFn) {
            let parent = tcx.parent(def_id);
            match tcx.def_kind(parent) {
                DefKind::Trait => {
                    o.push(("trait", J::s(&tcx.def_path_str(parent))));
                    if args.len() > 0 {
                        if let Some(t) = args[0].as_type() {
                            o.push(("self_ty", J::s(&t.to_string())));
                        }
                    }
                }
                DefKind::Impl { .. } => {
                    let st = tcx.type_of(parent).instantiate(tcx, args).skip_norm_wip();
                    o.push(("self_ty", J::s(&st.to_string())));
                }
                _ => {}
            }
        }
        // resolution of trait methods to their impl
        if let Ok(Some(inst)) = Instance::try_resolve(tcx, self.env, def_id, args) {
            let rid = inst.def_id();
            if rid != def_id {
                o.push(("resolved", J::s(&crate::dpath(tcx, rid))));
                o.push(("resolved_id", J::s(&crate::def_id_str(tcx, rid))));
                o.push(("resolved_local", J::Bool(rid.is_local())));
                o.push(("resolved_kind", J::s(&format!("{:?}", tcx.def_kind(rid)))));
            }
        }
        o
    }

    fn constant(&self, c: &ConstOperand<'tcx>) -> J {
        let ty = c.const_.ty();
        let mut o: Vec<(&'static str, J)> = vec![("o", J::s("const")), ("ty", J::s(&ty.to_string()))];
        match ty.kind() {
            ty::FnDef(def_id, args) => {
                o.push(("fn", J::Obj(self.fn_def(*def_id, args))));
            }
            _ => {
                // scalar value when available
                if let Some(s) = c.const_.try_eval_scalar_int(self.tcx, self.env) {
                    if ty.is_bool() || ty.is_integral() || ty.is_char() {
                        let size = s.size();
                        let bits = s.to_bits(size);
                        let v: i128 = if ty.is_signed() {
                            size.sign_extend(bits) as i128
                        } else {
                            bits as i128
                        };
                        o.push(("val", J::s(&v.to_string())));
                    }
                }
                o.push(("d", J::s(&format!("{}", c.const_))));
            }
        }
        J::Obj(o)
    }

    fn operand(&self, op: &Operand<'tcx>) -> J {
        match op {
            Operand::Copy(p) => {
                let mut j = self.place(p);
                if let J::Obj(ref mut v) = j {
                    v.insert(0, ("o", J::s("copy")));
                }
                j
            }
            Operand::Move(p) => {
                let mut j = self.place(p);
                if let J::Obj(ref mut v) = j {
                    v.insert(0, ("o", J::s("move")));
                }
                j
            }
            Operand::Constant(c) => self.constant(c),
            #[allow(unreachable_patterns)]
            _ => J::Obj(vec![("o", J::s("other")), ("d", J::s(&format!("{:?}", op)))]),
        }
    }

    fn rvalue(&self, rv: &Rvalue<'tcx>) -> J {
        match rv {
            Rvalue::Use(op, ..) => J::Obj(vec![("r", J::s("use")), ("op", self.operand(op))]),
            Rvalue::Ref(_, bk, p) => J::Obj(vec![
                ("r", J::s("ref")),
                ("mut", J::Bool(matches!(bk, rustc_middle::mir::BorrowKind::Mut { .. }))),
                ("place", self.place(p)),
            ]),
            Rvalue::RawPtr(_, p) => J::Obj(vec![("r", J::s("rawptr")), ("place", self.place(p))]),
            Rvalue::CopyForDeref(p) => {
                J::Obj(vec![("r", J::s("use")), ("op", {
                    let mut j = self.place(p);
                    if let J::Obj(ref mut v) = j {
                        v.insert(0, ("o", J::s("copy")));
                    }
                    j
                })])
            }
            Rvalue::Cast(kind, op, ty) => J::Obj(vec![
                ("r", J::s("cast")),
                ("kind", J::s(&format!("{:?}", kind))),
                ("op", self.operand(op)),
                ("ty", J::s(&ty.to_string())),
            ]),
            Rvalue::BinaryOp(bop, box (a, b)) => J::Obj(vec![
                ("r", J::s("binop")),
                ("op", J::s(&format!("{:?}", bop))),
                ("a", self.operand(a)),
                ("b", self.operand(b)),
            ]),
            Rvalue::UnaryOp(uop, a) => J::Obj(vec![
                ("r", J::s("unop")),
                ("op", J::s(&format!("{:?}", uop))),
                ("a", self.operand(a)),
            ]),
            Rvalue::Discriminant(p) => J::Obj(vec![("r", J::s("discr")), ("place", self.place(p))]),
            Rvalue::Aggregate(box kind, ops) => {
                let mut o: Vec<(&'static str, J)> = vec![("r", J::s("aggr"))];
                match kind {
                    AggregateKind::Adt(did, vidx, args, _, _) => {
                        let adt = self.tcx.adt_def(*did);
                        let v = adt.variant(*vidx);
                        o.push(("ak", J::s("adt")));
                        o.push(("adt", J::s(&self.tcx.def_path_str(*did))));
                        o.push(("variant", J::s(v.name.as_str())));
                        o.push(("is_enum", J::Bool(adt.is_enum())));
                        o.push((
                            "fields",
                            J::Arr(v.fields.iter().map(|f| J::s(f.name.as_str())).collect()),
                        ));
                        o.push(("gargs", J::s(&format!("{:?}", args))));
                    }
                    AggregateKind::Tuple => o.push(("ak", J::s("tuple"))),
                    AggregateKind::Array(_) => o.push(("ak", J::s("array"))),
                    AggregateKind::Closure(did, _) => {
                        o.push(("ak", J::s("closure")));
                        o.push(("closure", J::s(&self.tcx.def_path_str(*did))));
                        o.push(("closure_id", J::s(&crate::def_id_str(self.tcx, *did))));
                    }
                    other => {
                        o.push(("ak", J::s("other")));
                        o.push(("d", J::s(&format!("{:?}", other))));
                    }
                }
                o.push(("ops", J::Arr(ops.iter().map(|x| self.operand(x)).collect())));
                J::Obj(o)
            }
            Rvalue::Repeat(op, _) => J::Obj(vec![("r", J::s("repeat")), ("op", self.operand(op))]),
            Rvalue::ThreadLocalRef(did) => J::Obj(vec![
                ("r", J::s("tlsref")),
                ("def", J::s(&self.tcx.def_path_str(*did))),
            ]),
            other => J::Obj(vec![("r", J::s("other")), ("d", J::s(&format!("{:?}", other)))]),
        }
    }

    fn unwind(&self, u: &UnwindAction) -> J {
        match u {
            UnwindAction::Cleanup(b) => bb(*b),
            _ => J::Null,
        }
    }

    fn body(&self) -> J {
        let body = self.body;
        let tcx = self.tcx;
        let mut names: Vec<Option<String>> = vec![None; body.local_decls.len()];
        for vdi in body.var_debug_info.iter() {
            if let VarDebugInfoContents::Place(p) = vdi.value {
                if p.projection.is_empty() {
                    names[p.local.as_usize()] = Some(vdi.name.as_str().to_owned());
                }
            }
        }
        let locals = body
            .local_decls
            .iter_enumerated()
            .map(|(l, d)| {
                J::Obj(vec![
                    ("ty", J::s(&d.ty.to_string())),
                    ("name", J::opt(names[l.as_usize()].as_ref().map(|s| J::s(s)))),
                    ("ln", J::n(line_of(tcx, d.source_info.span) as i64)),
                ])
            })
            .collect();
        // upvar debug names (closure captured variables): name -> projection on _1
        let upvars = body
            .var_debug_info
            .iter()
            .filter_map(|vdi| match vdi.value {
                VarDebugInfoContents::Place(p) if !p.projection.is_empty() => Some(J::Obj(vec![
                    ("name", J::s(vdi.name.as_str())),
                    ("place", self.place(&p)),
                ])),
                _ => None,
            })
            .collect();
        let blocks = body
            .basic_blocks
            .iter_enumerated()
            .map(|(_b, data)| {
                let stmts = data
                    .statements
                    .iter()
                    .filter_map(|s| {
                        let ln = J::n(line_of(tcx, s.source_info.span) as i64);
                        let exp = J::Bool(s.source_info.span.from_expansion());
                        match &s.kind {
                            StatementKind::Assign(box (place, rv)) => Some(J::Obj(vec![
                                ("s", J::s("assign")),
                                ("place", self.place(place)),
                                ("rv", self.rvalue(rv)),
                                ("ln", ln),
                                ("exp", exp),
                            ])),
                            StatementKind::SetDiscriminant { place, variant_index } => {
                                Some(J::Obj(vec![
                                    ("s", J::s("setdiscr")),
                                    ("place", self.place(place)),
                                    ("variant", J::n(variant_index.as_usize() as i64)),
                                    ("ln", ln),
                                ]))
                            }
                            StatementKind::StorageLive(_)
                            | StatementKind::StorageDead(_)
                            | StatementKind::Nop
                            | StatementKind::FakeRead(..)
                            | StatementKind::AscribeUserType(..)
                            | StatementKind::Coverage(..)
                            | StatementKind::ConstEvalCounter
                            | StatementKind::PlaceMention(..) => None,
                            other => Some(J::Obj(vec![
                                ("s", J::s("other")),
                                ("d", J::s(&format!("{:?}", other))),
                                ("ln", ln),
                            ])),
                        }
                    })
                    .collect();
                let t = data.terminator();
                let ln = J::n(line_of(tcx, t.source_info.span) as i64);
                let exp = J::Bool(t.source_info.span.from_expansion());
                let mut to: Vec<(&'static str, J)> = match &t.kind {
                    TerminatorKind::Goto { target } => {
                        vec![("t", J::s("goto")), ("target", bb(*target))]
                    }
                    TerminatorKind::SwitchInt { discr, targets } => {
                        let ts = targets
                            .iter()
                            .map(|(v, b)| J::Arr(vec![J::s(&v.to_string()), bb(b)]))
                            .collect();
                        vec![
                            ("t", J::s("switch")),
                            ("discr", self.operand(discr)),
                            ("targets", J::Arr(ts)),
                            ("otherwise", bb(targets.otherwise())),
                        ]
                    }
                    TerminatorKind::Return => vec![("t", J::s("return"))],
                    TerminatorKind::Unreachable => vec![("t", J::s("unreachable"))],
                    TerminatorKind::UnwindResume => vec![("t", J::s("resume"))],
                    TerminatorKind::UnwindTerminate(_) => vec![("t", J::s("terminate"))],
                    TerminatorKind::Drop { place, target, unwind, .. } => vec![
                        ("t", J::s("drop")),
                        ("place", self.place(place)),
                        ("target", bb(*target)),
                        ("unwind", self.unwind(unwind)),
                    ],
                    TerminatorKind::Call { func, args, destination, target, unwind, fn_span, .. } => {
                        vec![
                            ("t", J::s("call")),
                            ("func", self.operand(func)),
                            ("args", J::Arr(args.iter().map(|a| self.operand(&a.node)).collect())),
                            ("dest", self.place(destination)),
                            ("target", J::opt(target.map(bb))),
                            ("unwind", self.unwind(unwind)),
                            ("fn_ln", J::n(line_of(tcx, *fn_span) as i64)),
                        ]
                    }
                    TerminatorKind::Assert { cond, expected, target, msg, unwind } => vec![
                        ("t", J::s("assert")),
                        ("cond", self.operand(cond)),
                        ("expected", J::Bool(*expected)),
                        ("target", bb(*target)),
                        ("unwind", self.unwind(unwind)),
                        ("msg", J::s(&format!("{:?}", msg))),
                    ],
                    TerminatorKind::FalseEdge { real_target, .. } => {
                        vec![("t", J::s("goto")), ("target", bb(*real_target))]
                    }
                    TerminatorKind::FalseUnwind { real_target, .. } => {
                        vec![("t", J::s("goto")), ("target", bb(*real_target))]
                    }
                    other => vec![("t", J::s("other")), ("d", J::s(&format!("{:?}", other)))],
                };
                to.push(("ln", ln));
                to.push(("exp", exp));
                J::Obj(vec![
                    ("cleanup", J::Bool(data.is_cleanup)),
                    ("stmts", J::Arr(stmts)),
                    ("term", J::Obj(to)),
                ])
            })
            .collect();
        J::Obj(vec![
            ("argc", J::n(body.arg_count as i64)),
            ("locals", J::Arr(locals)),
            ("upvars", J::Arr(upvars)),
            ("blocks", J::Arr(blocks)),
        ])
    }
}

/// Function items referenced from promoted constants of a body (e.g. `&[parse_statement]` arrays of fn pointers).
pub fn export_promoted_fns<'tcx>(tcx: TyCtxt<'tcx>, def: LocalDefId) -> J {
    let did = def.to_def_id();
    if !tcx.is_mir_available(did) {
        return J::Arr(vec![]);
    }
    let env = TypingEnv::post_analysis(tcx, did);
    let mut out = Vec::new();
    for body in tcx.promoted_mir(did).iter() {
        let m = M { tcx, body, env };
        for data in body.basic_blocks.iter() {
            for s in data.statements.iter() {
                if let StatementKind::Assign(box (_, rv)) = &s.kind {
                    let mut ops: Vec<&Operand<'tcx>> = Vec::new();
                    match rv {
                        Rvalue::Use(op, ..) | Rvalue::Cast(_, op, _) | Rvalue::Repeat(op, _) => ops.push(op),
                        Rvalue::Aggregate(_, xs) => ops.extend(xs.iter()),
                        _ => {}
                    }
                    for op in ops {
                        if let Operand::Constant(c) = op {
                            if let ty::FnDef(d, a) = c.const_.ty().kind() {
                                out.push(J::Obj(m.fn_def(*d, a)));
                            }
                        }
                    }
                }
            }
        }
    }
    J::Arr(out)
}

pub fn export_body<'tcx>(tcx: TyCtxt<'tcx>, def: LocalDefId) -> J {
    let did = def.to_def_id();
    if !tcx.is_mir_available(did) {
        return J::Null;
    }
    let body = tcx.optimized_mir(did);
    let env = TypingEnv::post_analysis(tcx, did);
    let m = M { tcx, body, env };
    let _: Ty<'tcx> = body.local_decls[rustc_middle::mir::RETURN_PLACE].ty;
    m.body()
}
