//! Typed HIR expression trees.
use crate::json::J;
use crate::line_of;
use rustc_hir as hir;
use rustc_hir::def::Res;
use rustc_hir::def_id::LocalDefId;
use rustc_middle::ty::{self, TyCtxt};

struct X<'tcx> {
    tcx: TyCtxt<'tcx>,
    tr: &'tcx ty::TypeckResults<'tcx>,
}

fn hid_str(h: hir::HirId) -> String {
    format!("{}.{}", h.owner.def_id.local_def_index.as_u32(), h.local_id.as_u32())
}

impl<'tcx> X<'tcx> {
    fn res(&self, r: Res) -> J {
        match r {
            Res::Def(k, d) => J::Obj(vec![
                ("res", J::s("def")),
                ("dk", J::s(&format!("{:?}", k))),
                ("def", J::s(&crate::dpath(self.tcx, d))),
                ("id", J::s(&crate::def_id_str(self.tcx, d))),
            ]),
            Res::Local(h) => J::Obj(vec![("res", J::s("local")), ("hid", J::s(&hid_str(h)))]),
            Res::SelfCtor(_) => J::Obj(vec![("res", J::s("selfctor"))]),
            o => J::Obj(vec![("res", J::s("other")), ("d", J::s(&format!("{:?}", o)))]),
        }
    }
    fn pats(&self, ps: &'tcx [hir::Pat<'tcx>]) -> J {
        J::Arr(ps.iter().map(|p| self.pat(p)).collect())
    }
    fn pat(&self, p: &'tcx hir::Pat<'tcx>) -> J {
        match p.kind {
            hir::PatKind::Wild => J::Obj(vec![("k", J::s("wild"))]),
            hir::PatKind::Binding(mode, id, ident, sub) => J::Obj(vec![
                ("k", J::s("bind")),
                ("name", J::s(ident.name.as_str())),
                ("hid", J::s(&hid_str(id))),
                ("mode", J::s(&format!("{:?}", mode))),
                ("sub", J::opt(sub.map(|s| self.pat(s)))),
            ]),
            hir::PatKind::TupleStruct(ref qp, subs, _) => J::Obj(vec![
                ("k", J::s("ts")),
                ("path", self.res(self.tr.qpath_res(qp, p.hir_id))),
                ("subs", self.pats(subs)),
            ]),
            hir::PatKind::Struct(ref qp, fields, _) => J::Obj(vec![
                ("k", J::s("struct")),
                ("path", self.res(self.tr.qpath_res(qp, p.hir_id))),
                (
                    "fields",
                    J::Arr(
                        fields
                            .iter()
                            .map(|f| J::Arr(vec![J::s(f.ident.name.as_str()), self.pat(f.pat)]))
                            .collect(),
                    ),
                ),
            ]),
            hir::PatKind::Or(ps) => J::Obj(vec![("k", J::s("or")), ("alts", self.pats(ps))]),
            hir::PatKind::Expr(e) => match e.kind {
                hir::PatExprKind::Path(ref qp) => J::Obj(vec![
                    ("k", J::s("path")),
                    ("path", self.res(self.tr.qpath_res(qp, e.hir_id))),
                ]),
                hir::PatExprKind::Lit { lit, .. } => {
                    J::Obj(vec![("k", J::s("lit")), ("v", J::s(&format!("{:?}", lit.node)))])
                }
            },
            hir::PatKind::Ref(s, ..) => J::Obj(vec![("k", J::s("ref")), ("p", self.pat(s))]),
            hir::PatKind::Deref(s) => J::Obj(vec![("k", J::s("ref")), ("p", self.pat(s))]),
            hir::PatKind::Box(s) => J::Obj(vec![("k", J::s("ref")), ("p", self.pat(s))]),
            hir::PatKind::Tuple(ps, _) => J::Obj(vec![
                ("k", J::s("tuple")),
                ("subs", self.pats(ps)),
                ("ty", J::s(&self.tr.pat_ty(p).to_string())),
            ]),
            hir::PatKind::Range(..) => J::Obj(vec![("k", J::s("range"))]),
            hir::PatKind::Slice(..) => J::Obj(vec![("k", J::s("slice"))]),
            _ => J::Obj(vec![("k", J::s("other"))]),
        }
    }
    fn exprs(&self, es: &'tcx [hir::Expr<'tcx>]) -> J {
        J::Arr(es.iter().map(|e| self.expr(e)).collect())
    }
    fn oexpr(&self, e: Option<&'tcx hir::Expr<'tcx>>) -> J {
        J::opt(e.map(|e| self.expr(e)))
    }
    fn block_fields(&self, b: &'tcx hir::Block<'tcx>) -> Vec<(&'static str, J)> {
        let mut stmts = Vec::new();
        for s in b.stmts {
            match s.kind {
                hir::StmtKind::Let(l) => stmts.push(J::Obj(vec![
                    ("k", J::s("local")),
                    ("pat", self.pat(l.pat)),
                    ("init", self.oexpr(l.init)),
                    ("els", J::opt(l.els.map(|b| self.block(b)))),
                    ("ln", J::n(line_of(self.tcx, s.span) as i64)),
                ])),
                hir::StmtKind::Expr(e) | hir::StmtKind::Semi(e) => {
                    stmts.push(J::Obj(vec![("k", J::s("expr")), ("e", self.expr(e))]))
                }
                hir::StmtKind::Item(_) => {}
            }
        }
        vec![("k", J::s("block")), ("stmts", J::Arr(stmts)), ("expr", self.oexpr(b.expr))]
    }
    fn block(&self, b: &'tcx hir::Block<'tcx>) -> J {
        let mut f = self.block_fields(b);
        f.push(("ty", J::s("")));
        f.push(("exp", J::Bool(b.span.from_expansion())));
        f.push(("ln", J::n(line_of(self.tcx, b.span) as i64)));
        J::Obj(f)
    }
    fn expr(&self, e: &'tcx hir::Expr<'tcx>) -> J {
        let ty = self.tr.expr_ty(e);
        let mut o: Vec<(&'static str, J)> = vec![
            ("ty", J::s(&ty.to_string())),
            ("exp", J::Bool(e.span.from_expansion())),
            ("ln", J::n(line_of(self.tcx, e.span) as i64)),
        ];
        // adjusted type when auto-(de)ref applies (useful for receivers)
        let adj = self.tr.expr_ty_adjusted(e);
        if adj != ty {
            o.push(("tya", J::s(&adj.to_string())));
        }
        let body: Vec<(&'static str, J)> = match e.kind {
            hir::ExprKind::Call(f, args) => {
                let callee = if let hir::ExprKind::Path(ref qp) = f.kind {
                    let mut r = self.res(self.tr.qpath_res(qp, f.hir_id));
                    if let J::Obj(ref mut v) = r {
                        v.push(("fty", J::s(&self.tr.expr_ty(f).to_string())));
                    }
                    r
                } else {
                    J::Obj(vec![("res", J::s("expr")), ("e", self.expr(f))])
                };
                vec![("k", J::s("call")), ("f", callee), ("args", self.exprs(args))]
            }
            hir::ExprKind::MethodCall(seg, recv, args, _) => {
                let did = self.tr.type_dependent_def_id(e.hir_id);
                let substs = self.tr.node_args(e.hir_id);
                vec![
                    ("k", J::s("mcall")),
                    ("name", J::s(seg.ident.name.as_str())),
                    ("m", J::s(&did.map(|d| crate::dpath(self.tcx, d)).unwrap_or_default())),
                    ("mid", J::s(&did.map(|d| crate::def_id_str(self.tcx, d)).unwrap_or_default())),
                    ("margs", J::s(&format!("{:?}", substs))),
                    ("recv", self.expr(recv)),
                    ("args", self.exprs(args)),
                ]
            }
            hir::ExprKind::Match(scrut, arms, src) => {
                let arms_j = arms
                    .iter()
                    .map(|a| {
                        J::Obj(vec![
                            ("pat", self.pat(a.pat)),
                            ("guard", self.oexpr(a.guard)),
                            ("body", self.expr(a.body)),
                        ])
                    })
                    .collect();
                let src_s = match src {
                    hir::MatchSource::Normal => "Normal",
                    hir::MatchSource::TryDesugar(_) => "TryDesugar",
                    hir::MatchSource::ForLoopDesugar => "ForLoopDesugar",
                    hir::MatchSource::Postfix => "Postfix",
                    hir::MatchSource::AwaitDesugar => "AwaitDesugar",
                    hir::MatchSource::FormatArgs => "FormatArgs",
                };
                vec![
                    ("k", J::s("match")),
                    ("src", J::s(src_s)),
                    ("scrut", self.expr(scrut)),
                    ("arms", J::Arr(arms_j)),
                ]
            }
            hir::ExprKind::If(c, t, el) => vec![
                ("k", J::s("if")),
                ("cond", self.expr(c)),
                ("then", self.expr(t)),
                ("else", self.oexpr(el)),
            ],
            hir::ExprKind::Let(l) => {
                vec![("k", J::s("let")), ("pat", self.pat(l.pat)), ("init", self.expr(l.init))]
            }
            hir::ExprKind::Block(b, _) => self.block_fields(b),
            hir::ExprKind::Path(ref qp) => {
                vec![("k", J::s("path")), ("p", self.res(self.tr.qpath_res(qp, e.hir_id)))]
            }
            hir::ExprKind::Field(b, id) => {
                vec![("k", J::s("field")), ("base", self.expr(b)), ("name", J::s(id.name.as_str()))]
            }
            hir::ExprKind::Lit(l) => vec![("k", J::s("lit")), ("v", J::s(&format!("{:?}", l.node)))],
            hir::ExprKind::Closure(c) => {
                let b = self.tcx.hir_body(c.body);
                vec![
                    ("k", J::s("closure")),
                    ("def", J::s(&self.tcx.def_path_str(c.def_id.to_def_id()))),
                    ("id", J::s(&crate::def_id_str(self.tcx, c.def_id.to_def_id()))),
                    ("params", J::Arr(b.params.iter().map(|p| self.pat(p.pat)).collect())),
                    ("body", self.expr(b.value)),
                ]
            }
            hir::ExprKind::AddrOf(_, m, x) => vec![
                ("k", J::s("addr")),
                ("mut", J::Bool(m == rustc_ast::Mutability::Mut)),
                ("e", self.expr(x)),
            ],
            hir::ExprKind::Unary(op, x) => {
                vec![("k", J::s("unary")), ("op", J::s(&format!("{:?}", op))), ("e", self.expr(x))]
            }
            hir::ExprKind::Binary(op, l, r) => vec![
                ("k", J::s("binary")),
                ("op", J::s(&format!("{:?}", op.node))),
                ("l", self.expr(l)),
                ("r", self.expr(r)),
            ],
            hir::ExprKind::Assign(l, r, _) => {
                vec![("k", J::s("assign")), ("l", self.expr(l)), ("r", self.expr(r))]
            }
            hir::ExprKind::AssignOp(op, l, r) => vec![
                ("k", J::s("assignop")),
                ("op", J::s(&format!("{:?}", op.node))),
                ("l", self.expr(l)),
                ("r", self.expr(r)),
            ],
            hir::ExprKind::Ret(x) => vec![("k", J::s("ret")), ("e", self.oexpr(x))],
            hir::ExprKind::Break(_, x) => vec![("k", J::s("break")), ("e", self.oexpr(x))],
            hir::ExprKind::Continue(_) => vec![("k", J::s("continue"))],
            hir::ExprKind::Loop(b, _, src, _) => vec![
                ("k", J::s("loop")),
                ("src", J::s(&format!("{:?}", src))),
                ("body", self.block(b)),
            ],
            hir::ExprKind::Tup(xs) => vec![("k", J::s("tup")), ("es", self.exprs(xs))],
            hir::ExprKind::Array(xs) => vec![("k", J::s("array")), ("es", self.exprs(xs))],
            hir::ExprKind::Struct(qp, fields, tail) => {
                let base = match tail {
                    hir::StructTailExpr::Base(b) => self.expr(b),
                    hir::StructTailExpr::DefaultFields(_) => J::s("default-fields"),
                    _ => J::Null,
                };
                vec![
                    ("k", J::s("struct")),
                    ("path", self.res(self.tr.qpath_res(qp, e.hir_id))),
                    (
                        "fields",
                        J::Arr(
                            fields
                                .iter()
                                .map(|f| {
                                    J::Arr(vec![J::s(f.ident.name.as_str()), self.expr(f.expr)])
                                })
                                .collect(),
                        ),
                    ),
                    ("base", base),
                ]
            }
            hir::ExprKind::Cast(x, _) => vec![("k", J::s("cast")), ("e", self.expr(x))],
            hir::ExprKind::Index(b, i, _) => {
                vec![("k", J::s("index")), ("base", self.expr(b)), ("idx", self.expr(i))]
            }
            hir::ExprKind::DropTemps(x) => return self.expr(x),
            hir::ExprKind::Use(x, _) => return self.expr(x),
            _ => vec![
                ("k", J::s("other")),
                ("d", J::s(&format!("{:?}", std::mem::discriminant(&e.kind)))),
            ],
        };
        o.extend(body);
        J::Obj(o)
    }
}

pub fn export_body<'tcx>(tcx: TyCtxt<'tcx>, def: LocalDefId) -> J {
    let body = tcx.hir_body_owned_by(def);
    let x = X { tcx, tr: tcx.typeck(def) };
    J::Obj(vec![
        ("params", J::Arr(body.params.iter().map(|p| x.pat(p.pat)).collect())),
        ("body", x.expr(body.value)),
    ])
}
