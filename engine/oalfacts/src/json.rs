//! Minimal JSON value + writer (no cargo dependencies on purpose).
use std::fmt::Write;

pub enum J {
    Null,
    Bool(bool),
    Num(i64),
    Str(String),
    Arr(Vec<J>),
    Obj(Vec<(&'static str, J)>),
}

impl J {
    pub fn s(s: &str) -> J {
        J::Str(s.to_owned())
    }
    pub fn n(n: i64) -> J {
        J::Num(n)
    }
    pub fn opt(o: Option<J>) -> J {
        o.unwrap_or(J::Null)
    }
    pub fn write(&self, o: &mut String) {
        match self {
            J::Null => o.push_str("null"),
            J::Bool(b) => o.push_str(if *b { "true" } else { "false" }),
            J::Num(n) => {
                let _ = write!(o, "{}", n);
            }
            J::Str(s) => esc(s, o),
            J::Arr(v) => {
                o.push('[');
                for (i, x) in v.iter().enumerate() {
                    if i > 0 {
                        o.push(',');
                    }
                    x.write(o);
                }
                o.push(']');
            }
            J::Obj(v) => {
                o.push('{');
                for (i, (k, x)) in v.iter().enumerate() {
                    if i > 0 {
                        o.push(',');
                    }
                    esc(k, o);
                    o.push(':');
                    x.write(o);
                }
                o.push('}');
            }
        }
    }
}

fn esc(s: &str, o: &mut String) {
    o.push('"');
    for c in s.chars() {
        match c {
            '"' => o.push_str("\\\""),
            '\\' => o.push_str("\\\\"),
            '\n' => o.push_str("\\n"),
            '\t' => o.push_str("\\t"),
            '\r' => o.push_str("\\r"),
            c if (c as u32) < 0x20 => {
                let _ = write!(o, "\\u{:04x}", c as u32);
            }
            c => o.push(c),
        }
    }
    o.push('"');
}
