//! Positive examples for rules whose expected count on /repo is zero. Analysed by the same exporter on every run:
//! a rule primitive that does not fire here makes the check fail (exit 2, no verdict) instead of passing vacuously.
#![allow(dead_code, unused_variables, clippy::all)]
use std::collections::HashMap;
use std::sync::atomic::{AtomicU64, Ordering};

// ---- C06: order leak behind two call levels, nondeterminism sources, mutable global ----
pub static COUNTER: AtomicU64 = AtomicU64::new(0);
pub static TABLE: [u8; 4] = [1, 2, 3, 4];

pub fn pipeline_entry(m: &HashMap<String, String>) -> Vec<String> {
    level_one(m)
}

fn level_one(m: &HashMap<String, String>) -> Vec<String> {
    leak_order(m)
}

fn leak_order(m: &HashMap<String, String>) -> Vec<String> {
    m.iter().map(|(k, v)| format!("{k}={v}")).collect()
}

pub fn order_free(m: &HashMap<String, String>) -> usize {
    m.values().filter(|v| v.is_empty()).count()
}

pub fn clock_in_name() -> u64 {
    let n = COUNTER.fetch_add(1, Ordering::Relaxed);
    let t = std::time::SystemTime::now();
    let p = &n as *const u64 as usize;
    n + p as u64 + t.elapsed().map(|d| d.as_secs()).unwrap_or(0)
}

// ---- C14: writes outside the frame ----
pub mod openapiv3 {
    #[derive(Default)]
    pub struct Components {
        pub schemas: Vec<String>,
        pub responses: Vec<String>,
    }
    #[derive(Default)]
    pub struct OpenAPI {
        pub paths: Vec<String>,
        pub servers: Vec<String>,
        pub components: Option<Components>,
    }
}

pub fn frame_violations(mut doc: openapiv3::OpenAPI, paths: Vec<String>) -> openapiv3::OpenAPI {
    doc.paths = paths;
    doc.servers.clear();
    doc.components = Some(Default::default());
    doc
}

// ---- C16: unit mixing and a wrong accumulator ----
pub mod lsp_types {
    pub struct Position {
        pub line: u32,
        pub character: u32,
    }
}

pub fn mixed_units(text: &str, position: lsp_types::Position) -> usize {
    let mut character = 0;
    let mut utf8_index = 0;
    for c in text.chars() {
        if utf8_index as u32 == position.character {
            break;
        }
        character += 1;
        utf8_index += c.len_utf8();
        if character == position.character {
            break;
        }
    }
    utf8_index
}

// ---- C04: panic-capable sinks ----
pub fn sinks(input: &str) -> u64 {
    let n: u64 = input.parse().expect("number");
    let first = &input[1..];
    n + first.len() as u64
}

// ---- polarity: a construct on the wrong edge of its guard, and a match guard falling through ----
pub fn wrong_edge(flag: Option<u32>, name: &str) -> String {
    match flag {
        Some(v) if name.is_empty() => v.to_string(),
        _ => format!("#/ref/{name}"),
    }
}

// ---- attached => consumed: a separator pushed before the following element is parsed, old cursor returned ----
#[derive(Clone, Copy)]
pub struct Cursor(pub usize);
pub struct ParserMatch(pub u32);
pub type ParserResult = Result<(Cursor, ParserMatch), ()>;

pub fn stale_cursor_after_push(
    mut s: Cursor,
    ns: &mut Vec<ParserMatch>,
    elem: fn(Cursor) -> ParserResult,
    sep: fn(Cursor) -> ParserResult,
) -> Result<Cursor, ()> {
    let (s0, n) = elem(s)?;
    ns.push(n);
    s = s0;
    loop {
        let Ok((s1, n0)) = sep(s) else { break };
        ns.push(n0);
        let Ok((s2, n1)) = elem(s1) else { break };
        ns.push(n1);
        s = s2;
    }
    Ok(s)
}

pub fn cursor_follows_push(
    mut s: Cursor,
    ns: &mut Vec<ParserMatch>,
    elem: fn(Cursor) -> ParserResult,
    sep: fn(Cursor) -> ParserResult,
) -> Result<Cursor, ()> {
    let (s0, n) = elem(s)?;
    ns.push(n);
    s = s0;
    loop {
        let Ok((s1, n0)) = sep(s) else { break };
        let Ok((s2, n1)) = elem(s1) else { break };
        ns.push(n0);
        ns.push(n1);
        s = s2;
    }
    Ok(s)
}

// ---- inliner: a push / fallible step / pop sequence living in a private helper ----
fn check_small(x: u32) -> Result<u32, ()> {
    if x > 3 {
        Err(())
    } else {
        Ok(x)
    }
}

fn in_scope(stack: &mut Vec<u32>, x: u32) -> Result<u32, ()> {
    stack.push(x);
    let r = check_small(x)?;
    stack.pop();
    Ok(r)
}

pub fn uses_scope_helper(stack: &mut Vec<u32>, x: u32) -> Result<u32, ()> {
    let r = in_scope(stack, x)?;
    Ok(r + 1)
}
